package main

// C07 - resubmissions get the identical SCT; leaf indexes assigned exactly once.

import (
	"bytes"
	"fmt"
	"go/ast"
	"go/printer"
	"go/token"
	"go/types"
	"strings"
)

func init() {
	register(&Property{
		ID:    "C07",
		Title: "Resubmissions get the identical SCT and leaf indexes are assigned exactly once",
		Explanation: "Lock-discipline (must-lockset over go/cfg), ordering, table-agreement and value-flow obligations on addLeafToPool, sequence, cacheGet/cachePut, digitallySign and cmd/recompute-cache. " +
			"Decided: the pool, the in-sequencing map and the cache read connection are only touched with poolMu held (including helper preconditions checked at every call site); pool rotation and in-sequencing hand-over happen in one critical section and the in-sequencing map is cleared only after the sequencing function returned; in addLeafToPool all three lookups precede the insertion, hits return, all use the same key; the two copies of the cache-key function are identical and use the entry-identifying part of the Merkle leaf; SQL columns and bound values agree in every cache statement; the ECDSA signature is requested with a nil random source; recompute-cache inserts only entries yielded by the authenticated client at their own index. " +
			"NOT decided: runtime interleavings beyond the lock discipline, cache-loss semantics.",
		Assumptions: []string{"sync.Mutex provides mutual exclusion", "ecdsa.PrivateKey.Sign with a nil rand is deterministic (RFC 6979, Go >= 1.24)", "sunlight.Client authenticates entries (C12)"},
		Obligations: []*Obligation{
			{ID: "C07.a", Title: "POOL-LOCK", Template: "T3", MinInst: 8,
				Rule: "Log.currentPool, inSequencing, cacheRead, cacheLegacy are accessed only with the same Log's poolMu held (helpers: at every call site)",
				Run: func(c *Ctx) {
					c.checkLockDiscipline(Protected{Pkg: pkgCtlog, Type: "Log", Mutex: "poolMu", Fields: []string{"currentPool", "inSequencing", "cacheRead", "cacheLegacy"}},
						[]lockException{{"ctlog.(*Log).CloseCache", "cacheRead", "shutdown path: called once by the command after the sequencer and server stopped"}}, false)
				}},
			{ID: "C07.b", Title: "ATOMIC-ROTATION", Template: "T1+T3", MinInst: 2,
				Rule: "the pool handed to the sequencing function is read, replaced by a fresh pool and published as inSequencing without an intervening Unlock; inSequencing is cleared only after the sequencing function returned",
				Run:  c07b},
			{ID: "C07.c", Title: "LOOKUP-THEN-INSERT", Template: "T1+T3+T6", MinInst: 7,
				Rule: "in addLeafToPool the insertion into pool.byHash is reachable only through the miss edges of the lookups in the current pool, the in-sequencing map and the cache, all with the key computed from the submitted leaf, with no Unlock in between; every store of the leaf into pool.pendingLeaves is followed by that insertion on every path to a return",
				Run:  c07c},
			{ID: "C07.d", Title: "KEY-SCHEMA", Template: "T5", MinInst: 2,
				Rule: "both computeCacheHash copies have identical bodies, and their byte schema is the entry-identifying part of MerkleTreeLeaf (entry type, issuer key hash for precerts, u24-prefixed certificate)",
				Run:  c07d},
			{ID: "C07.e", Title: "SQL-ARGS", Template: "T5", MinInst: 4,
				Rule: "in every cache statement each column is bound to / read into the matching value: key <- computeCacheHash, timestamp <-> Timestamp, leaf_index <-> LeafIndex",
				Run:  c07e},
			{ID: "C07.f", Title: "DETERMINISTIC-SIGNATURE", Template: "T6", MinInst: 1,
				Rule: "the SCT signature is requested with a nil random source over the SHA-256 of the message, whatever path the source takes to ecdsa Sign",
				Run:  func(c *Ctx) { c07fFor(c, "ctlog.(*Log).addChainOrPreChain") }},
			{ID: "C07.h", Title: "ACK-NAMES-OWN-SLOT", Template: "T2+T6", MinInst: 4,
				Rule: "the index a waiter reports is the pool's first index plus the slot at which that very leaf is stored (also after evicting a low-priority entry), guarded by done / not evicted / no error (as C02.d)",
				Run:  c02d},
			{ID: "C07.g", Title: "RECOMPUTE-AUTHENTIC", Template: "T2+T6", MinInst: 2,
				Rule: "recompute-cache inserts only entries yielded by Client.Entries over the tree returned by Client.Checkpoint, guarded by LeafIndex == position",
				Run:  c07g},
		},
	})
}

func isUnlockNode(info *types.Info) func(Point, ast.Node) bool {
	return func(_ Point, n ast.Node) bool {
		es, ok := n.(*ast.ExprStmt)
		if !ok {
			return false
		}
		call, ok := es.X.(*ast.CallExpr)
		if !ok {
			return false
		}
		_, op, ok := mutexOp(info, call)
		return ok && (op == "Unlock" || op == "RUnlock")
	}
}

func c07b(c *Ctx) {
	cur := c.P.fieldVar(pkgCtlog, "Log", "currentPool")
	ins := c.P.fieldVar(pkgCtlog, "Log", "inSequencing")
	if cur == nil || ins == nil {
		c.Unk("fields", "Log.currentPool / Log.inSequencing not found")
		return
	}
	seqSet := map[*types.Func]bool{}
	for _, f := range sequencers(c.P) {
		if f.Obj != nil {
			seqSet[f.Obj] = true
		}
	}
	n := 0
	for _, f := range c.P.Decls(pkgCtlog) {
		stores := f.StoresTo(cur)
		if len(stores) == 0 {
			continue
		}
		n++
		c.touch(f)
		info := f.Info()
		g := f.Graph()
		// the sequencing call and the pool it gets
		seqCalls := f.Find(func(n ast.Node) bool {
			call, ok := n.(*ast.CallExpr)
			if !ok {
				return false
			}
			fn, ok := calleeObj(info, call).(*types.Func)
			return ok && seqSet[fn.Origin()]
		})
		if len(seqCalls) != 1 {
			c.Bad(f.Name, stores[0].Pos(), "Log.currentPool is replaced in a function that does not hand the old pool to the sequencing function")
			continue
		}
		pArg := argByName(info, seqCalls[0].Call, "p")
		pObj := objOf(info, f.copyRoot(pArg)) // up to plain copies of the variable the pool was read into
		var read *Site
		if pObj != nil {
			for _, d := range f.Defs(pObj) {
				if d.Kind == DefAssign {
					if _, ok := fieldSel(info, d.Rhs, pkgCtlog, "Log", "currentPool"); ok {
						ss := f.Find(func(n ast.Node) bool { return n == d.Node })
						if len(ss) == 1 {
							read = &ss[0]
						}
					}
				}
			}
		}
		if read == nil || len(f.Defs(pObj)) != 1 {
			c.Bad(f.Name+" rotation", seqCalls[0].Pos(), "the pool given to the sequencing function is not a single read of Log.currentPool")
			continue
		}
		unlock := isUnlockNode(info)
		bad := false
		// currentPool store
		for _, st := range stores {
			st := st
			if c, ok := ast.Unparen(st.Rhs).(*ast.CallExpr); !ok || !matchCallee(info, c, Callee{pkgCtlog, "", "newPool"}) {
				bad = true
			}
			if pt, _ := g.Reach(read.After(), Cut{Stop: func(p Point, _ ast.Node) bool { return p == st.P }}, unlock); pt != nil {
				c.Bad(f.Name+" rotation", st.Pos(), "the lock can be released between reading the current pool and replacing it: a submission could join a pool that already started sequencing")
				bad = true
			}
		}
		var pub, clear []Store
		for _, st := range f.StoresTo(ins) {
			if st.Rhs != nil && isNilIdent(info, st.Rhs) {
				clear = append(clear, st)
			} else {
				pub = append(pub, st)
			}
		}
		if len(pub) == 0 {
			c.Bad(f.Name+" rotation", read.Pos(), "the pool being sequenced is never published as Log.inSequencing")
			continue
		}
		for _, st := range pub {
			st := st
			base, ok := fieldSel(info, st.Rhs, pkgCtlog, "pool", "byHash")
			if !ok || objOf(info, f.copyRoot(base)) != pObj {
				c.Bad(f.Name+" rotation", st.Pos(), "Log.inSequencing is not the byHash map of the pool being sequenced")
				bad = true
			}
			if pt, _ := g.Reach(read.After(), Cut{Stop: func(p Point, _ ast.Node) bool { return p == st.P }}, unlock); pt != nil {
				c.Bad(f.Name+" rotation", st.Pos(), "the lock can be released between rotating the pool and publishing it as inSequencing: a duplicate submitted in between would not be found")
				bad = true
			}
			if pt, _ := g.ReachableFromEntry(Cut{Stop: func(p Point, _ ast.Node) bool { return p == st.P }}, atSite(seqCalls[0])); pt != nil {
				c.Bad(f.Name+" rotation", st.Pos(), "the sequencing function can start before inSequencing is published")
				bad = true
			}
		}
		if !bad {
			c.OK(f.Name+" rotation", "p := currentPool; currentPool = newPool(); inSequencing = p.byHash in one critical section, before sequencing", []string{read.Pos()})
		}
		for _, st := range clear {
			inst := f.Name + " clear inSequencing"
			if pt, _ := g.ReachableFromEntry(Cut{Stop: func(p Point, _ ast.Node) bool { return p == seqCalls[0].P }}, atSite(st.Site)); pt != nil {
				c.Bad(inst, st.Pos(), "inSequencing can be cleared before the sequencing function (and its cache write) returned")
			} else {
				c.OK(inst, "cleared only after the sequencing function returned", []string{st.Pos()})
			}
		}
	}
	// inSequencing writers elsewhere
	for _, st := range c.P.AllStoresTo(ins) {
		if len(st.F.StoresTo(cur)) == 0 {
			c.Bad("inSequencing store in "+st.F.Name, st.Pos(), "Log.inSequencing is written outside the pool-rotation function")
		}
	}
	if n == 0 {
		c.Unk("rotation", "no function replaces Log.currentPool")
	}
}

func c07c(c *Ctx) {
	f := c.Fn("ctlog.(*Log).addLeafToPool")
	if f == nil {
		return
	}
	info := f.Info()
	g := f.Graph()
	byHash := c.P.fieldVar(pkgCtlog, "pool", "byHash")
	leafParam := f.paramObj("leaf")
	var ins []Store
	for _, st := range f.StoresTo(byHash) {
		if _, ok := ast.Unparen(st.Lhs).(*ast.IndexExpr); ok {
			ins = append(ins, st)
		}
	}
	if len(ins) != 1 {
		c.Unk(f.Name, fmt.Sprintf("expected one insertion into pool.byHash, found %d", len(ins)))
		return
	}
	I := ins[0]
	keyObj := objOf(info, I.Lhs.(*ast.IndexExpr).Index)
	// key = computeCacheHash(leaf.Certificate, leaf.IsPrecert, leaf.IssuerKeyHash)
	keyOK := false
	if keyObj != nil {
		if call, ok := f.IsCallResult(I.Lhs.(*ast.IndexExpr).Index, -1, Callee{pkgCtlog, "", "computeCacheHash"}); ok {
			keyOK = cacheHashArgsOf(f, call, leafParam)
		}
	}
	if !keyOK {
		c.Bad(f.Name+" key", I.Pos(), "the deduplication key is not computeCacheHash(leaf.Certificate, leaf.IsPrecert, leaf.IssuerKeyHash) of the submitted leaf")
	} else {
		c.OK(f.Name+" key", "key = computeCacheHash of the submitted leaf's identifying fields", []string{I.Pos()})
	}
	// every leaf that is put into the pool is registered under its key before the function returns:
	// an admitted but unregistered leaf would not deduplicate a resubmission (sequenced twice)
	pl := c.P.fieldVar(pkgCtlog, "pool", "pendingLeaves")
	if pl != nil {
		isIns := func(p Point, _ ast.Node) bool { return p == I.Site.P }
		nSt, badSt := 0, false
		for _, st := range f.StoresTo(pl) {
			if !st.Direct {
				// an element store pendingLeaves[n] = leaf (the slot taken over by an eviction)
				if _, isIdx := ast.Unparen(st.Lhs).(*ast.IndexExpr); !isIdx {
					continue
				}
			}
			nSt++
			rets := g.ReturnsFrom(st.Site.After(), Cut{Stop: isIns})
			if len(rets) > 0 {
				c.Bad(f.Name+" admitted leaf registered", f.Pos(rets[0]), "a leaf stored into pool.pendingLeaves at "+st.Pos()+" can be returned to its submitter without being inserted into pool.byHash: a resubmission before the round is cached would be sequenced a second time")
				badSt = true
			}
		}
		if !badSt && nSt > 0 {
			c.add(Result{Instance: f.Name + " admitted leaf registered", Verdict: Discharged, Evals: nSt, Sites: []string{I.Pos()}, Detail: fmt.Sprintf("%d store(s) into pool.pendingLeaves, each followed by the byHash insertion on every path to a return", nSt)})
		}
	}
	// map lookups
	type lk struct {
		name string
		pkg  string
		typ  string
		fld  string
	}
	for _, l := range []lk{{"current pool", pkgCtlog, "pool", "byHash"}, {"in-sequencing map", pkgCtlog, "Log", "inSequencing"}} {
		inst := f.Name + " lookup " + l.name
		var sites []Site
		for _, s := range f.Find(func(n ast.Node) bool {
			a, ok := n.(*ast.AssignStmt)
			if !ok || len(a.Rhs) != 1 || len(a.Lhs) != 2 {
				return false
			}
			ix, ok := ast.Unparen(a.Rhs[0]).(*ast.IndexExpr)
			if !ok {
				return false
			}
			_, ok = fieldSel(info, ix.X, l.pkg, l.typ, l.fld)
			return ok && objOf(info, ix.Index) == keyObj
		}) {
			sites = append(sites, s)
		}
		if len(sites) == 0 {
			c.Bad(inst, I.Pos(), "no lookup of the key in the "+l.name+" precedes the insertion")
			continue
		}
		miss := map[Edge]bool{}
		for _, s := range sites {
			a := s.X.(*ast.AssignStmt)
			okObj := objOf(info, a.Lhs[1])
			s2 := s
			s2.Call = nil
			fl, _ := boolOrErrEdges(s2, okObj, false)
			for e := range fl {
				miss[e] = true
			}
		}
		if len(miss) == 0 {
			c.Bad(inst, sites[0].Pos(), "the result of the lookup is not tested")
			continue
		}
		if pt, path := g.ReachableFromEntry(Cut{Edges: miss}, atSite(I.Site)); pt != nil {
			c.Bad(inst, I.Pos(), "the leaf can be inserted although the key was found in the "+l.name+" (path "+g.describePath(path)+")")
			continue
		}
		c.add(Result{Instance: inst, Verdict: Discharged, Sites: sitePositions(sites), Detail: "insertion only on the miss edge", Witnesses: f.WitEdges(miss)})
	}
	// cache lookup
	{
		inst := f.Name + " lookup cache"
		cg := f.Calls(Callee{pkgCtlog, "Log", "cacheGet"})
		if len(cg) != 1 {
			c.Bad(inst, I.Pos(), "no cache lookup precedes the insertion")
		} else {
			s := cg[0]
			if len(s.Call.Args) != 1 || objOf(info, s.Call.Args[0]) != leafParam {
				c.Bad(inst, s.Pos(), "the cache is not queried with the submitted leaf")
			} else if a, ok := s.Node.(*ast.AssignStmt); !ok || len(a.Lhs) != 2 {
				c.Unk(inst, "unrecognised binding of cacheGet's results")
			} else {
				hit := objOf(info, a.Lhs[0])
				isHit := func(e ast.Expr) bool { return objOf(info, e) == hit }
				missE := g.EdgesImplying(func(at Atom) bool {
					eq, ok := isNilCmp(info, at.E, isHit)
					return ok && eq == at.Val
				})
				nilE, _, _, okE := OutcomeEdges(s)
				switch {
				case len(missE) == 0 || !okE:
					c.Bad(inst, s.Pos(), "the cache result or its error is not tested")
				default:
					if pt, _ := g.ReachableFromEntry(Cut{Edges: missE}, atSite(I.Site)); pt != nil {
						c.Bad(inst, I.Pos(), "the leaf can be inserted although the cache returned an entry")
					} else if pt, _ := g.ReachableFromEntry(Cut{Edges: nilE}, atSite(I.Site)); pt != nil {
						c.Bad(inst, I.Pos(), "the leaf can be inserted although the cache lookup failed")
					} else {
						c.add(Result{Instance: inst, Verdict: Discharged, Sites: []string{s.Pos()}, Evals: 2, Detail: "insertion only when the cache returned (nil, nil)", Witnesses: append(f.WitEdges(missE), f.WitEdges(nilE)...)})
					}
				}
			}
		}
	}
	// one critical section: no Unlock statement on any path from the first lookup to the insertion
	unlock := isUnlockNode(info)
	if pt, _ := g.ReachableFromEntry(Cut{Stop: func(p Point, _ ast.Node) bool { return p == I.P }}, unlock); pt != nil {
		c.Bad(f.Name+" critical section", f.Pos(pt.B.Nodes[pt.I]), "the pool lock can be released between the duplicate lookups and the insertion")
	} else {
		c.OK(f.Name+" critical section", "no Unlock before the insertion (lock released by defer)", []string{I.Pos()})
	}
	// ... and that critical section covers every lookup: the pool lock is in the must-lockset at each
	// of the three lookups and at the insertion (a lookup made before taking the lock can be stale by
	// the time the leaf is inserted: a whole sequencing round fits in the gap)
	if recv := f.recvObj(); recv != nil {
		mkey := fmt.Sprintf("%s.poolMu@%d", recv.Name(), recv.Pos())
		ls := f.locksets(lockset{})
		var pts []Site
		pts = append(pts, I.Site)
		pts = append(pts, f.Calls(Callee{pkgCtlog, "Log", "cacheGet"})...)
		for _, l := range [][3]string{{pkgCtlog, "pool", "byHash"}, {pkgCtlog, "Log", "inSequencing"}} {
			pts = append(pts, f.Find(func(n ast.Node) bool {
				ix, ok := n.(*ast.IndexExpr)
				if !ok {
					return false
				}
				_, ok = fieldSel(info, ix.X, l[0], l[1], l[2])
				return ok
			})...)
		}
		var bad []string
		for _, s := range pts {
			if ls.At(s.P)[mkey] < lockW {
				bad = append(bad, s.Pos())
			}
		}
		if len(bad) > 0 {
			c.Bad(f.Name+" lookups under the lock", bad[0], "a duplicate lookup or the insertion is made without the pool lock held ("+strings.Join(bad, ", ")+"): the answer can be stale when the leaf is inserted")
		} else {
			c.add(Result{Instance: f.Name + " lookups under the lock", Verdict: Discharged, Sites: sitePositions(pts), Evals: len(pts), Detail: "poolMu is in the must-lockset at all lookups and at the insertion"})
		}
	}
	// cacheGet computes the same key from its parameter
	if cgf := c.Fn("ctlog.(*Log).cacheGet"); cgf != nil {
		p := cgf.paramObj("leaf")
		okKey := false
		for _, s := range cgf.Calls(Callee{pkgCtlog, "", "computeCacheHash"}) {
			if cacheHashArgsOf(cgf, s.Call, p) {
				okKey = true
			}
		}
		if okKey {
			c.OK(cgf.Name+" key", "cacheGet derives the key from its leaf parameter with computeCacheHash", nil)
		} else {
			c.Bad(cgf.Name+" key", cgf.Pos(cgf.Body), "cacheGet does not key the cache with computeCacheHash of its leaf")
		}
	}
}

// cacheHashArgsOf: call is computeCacheHash(x.Certificate, x.IsPrecert,
// x.IssuerKeyHash) with x the given object.
func cacheHashArgsOf(f *Func, call *ast.CallExpr, x types.Object) bool {
	if len(call.Args) != 3 || x == nil {
		return false
	}
	info := f.Info()
	for i, name := range []string{"Certificate", "IsPrecert", "IssuerKeyHash"} {
		root, path, ok := fieldPath(info, call.Args[i])
		if !ok || root != x || len(path) != 1 || path[0] != name {
			return false
		}
	}
	return true
}

// normalizedSource prints a declaration without comments.
func normalizedSource(fset *token.FileSet, n ast.Node) string {
	var buf bytes.Buffer
	cfg := printer.Config{Mode: printer.RawFormat}
	cfg.Fprint(&buf, fset, n)
	// strip comments left by the printer for inline /* */ forms
	out := buf.String()
	for {
		i := strings.Index(out, "/*")
		if i < 0 {
			break
		}
		j := strings.Index(out[i:], "*/")
		if j < 0 {
			break
		}
		out = out[:i] + out[i+j+2:]
	}
	return strings.Join(strings.Fields(out), " ")
}

func c07d(c *Ctx) {
	a := c.Fn("ctlog.computeCacheHash")
	b := c.Fn("recompute-cache.computeCacheHash")
	if a == nil || b == nil {
		return
	}
	sca, ea := builderSchema(a, nil)
	scb, eb := builderSchema(b, nil)
	sameHash := hashFinal(a) != "" && hashFinal(a) == hashFinal(b)
	if ea == nil && eb == nil && sca.String() == scb.String() && sca.String() != "" && paramNames(a) == paramNames(b) && sameHash {
		c.OK("computeCacheHash copies", "ctlog and recompute-cache write the same byte schema from the same parameters and hash it the same way: "+sca.String(), []string{a.Pos(a.Decl), b.Pos(b.Decl)})
	} else {
		c.Bad("computeCacheHash copies", b.Pos(b.Decl), "the two copies of computeCacheHash differ: keys written by recompute-cache would not be found by the log")
	}
	// schema vs MerkleTreeLeaf entry part
	m := c.Fn("sunlight.(*LogEntry).MerkleTreeLeaf")
	if m == nil {
		return
	}
	for _, f := range []*Func{a, b} {
		ks, err1 := builderSchema(f, nil)
		ms, err2 := builderSchema(m, nil)
		inst := f.Name + " vs MerkleTreeLeaf"
		if err1 != nil || err2 != nil {
			c.Unk(inst, fmt.Sprintf("cannot extract schema: %v %v", err1, err2))
			continue
		}
		want := entryPart(ms)
		got := ks.String()
		if want == got {
			c.add(Result{Instance: inst, Verdict: Discharged, Evals: 2, Detail: "key schema = " + got, Sites: []string{f.Pos(f.Decl)}})
		} else {
			c.Bad(inst, f.Pos(f.Decl), "cache key schema "+got+" is not the entry-identifying part of the Merkle leaf "+want)
		}
	}
}

// paramNames renders the parameter list by type only (names are free).
func paramNames(f *Func) string {
	var out []string
	for _, fl := range f.Type.Params.List {
		for range fl.Names {
			out = append(out, exprString(fl.Type))
		}
	}
	return strings.Join(out, ",")
}

// sqlColumnsAndPlaceholders parses "INSERT ... INTO t (c1, c2) VALUES (?, ?)".
func insertColumns(toks []string) (table string, cols []string, nph int, ok bool) {
	i := 0
	for i < len(toks) && toks[i] != "INTO" {
		i++
	}
	if i+1 >= len(toks) {
		return
	}
	table = toks[i+1]
	i += 2
	if i >= len(toks) || toks[i] != "(" {
		return
	}
	i++
	for i < len(toks) && toks[i] != ")" {
		if toks[i] != "," {
			cols = append(cols, toks[i])
		}
		i++
	}
	for i < len(toks) && toks[i] != "VALUES" {
		i++
	}
	for ; i < len(toks); i++ {
		if toks[i] == "?" {
			nph++
		}
	}
	return table, cols, nph, len(cols) > 0
}

func selectColumns(toks []string) (cols []string, table string, where []string) {
	i := 1
	for i < len(toks) && toks[i] != "FROM" {
		if toks[i] != "," {
			cols = append(cols, toks[i])
		}
		i++
	}
	if i+1 < len(toks) {
		table = toks[i+1]
	}
	for i < len(toks) && toks[i] != "WHERE" {
		i++
	}
	for i++; i < len(toks); i++ {
		where = append(where, toks[i])
	}
	return
}

// sqlBoundArgs returns the Go arguments bound to placeholders of a
// sqlitex.Exec(conn, query, resultFn, args...) call.
func sqlBoundArgs(call *ast.CallExpr) []ast.Expr {
	if len(call.Args) <= 3 {
		return nil
	}
	return call.Args[3:]
}

func c07e(c *Ctx) {
	type stmtSite struct {
		f *Func
		s Site
		q string
	}
	var all []stmtSite
	for _, pk := range []string{pkgCtlog, pkgRecomp} {
		for _, f := range c.P.Funcs(pk) {
			if f.Body == nil {
				continue
			}
			sites, qs := sqlCalls(f)
			for i := range sites {
				_, toks := sqlInfo(qs[i])
				if hasToken(toks, "CACHE256") || hasToken(toks, "CACHE") {
					all = append(all, stmtSite{f, sites[i], qs[i]})
				}
			}
		}
	}
	isHashOf := func(f *Func, e ast.Expr, full bool) bool {
		info := f.Info()
		x := ast.Unparen(e)
		sl, ok := x.(*ast.SliceExpr)
		if !ok {
			return false
		}
		if full && (sl.Low != nil || sl.High != nil) {
			return false
		}
		_, ok = f.IsCallResult(sl.X, -1, Callee{pkgCtlog, "", "computeCacheHash"}, Callee{pkgRecomp, "", "computeCacheHash"})
		_ = info
		return ok
	}
	isEntryField := func(f *Func, e ast.Expr, field string) bool {
		sel, ok := ast.Unparen(e).(*ast.SelectorExpr)
		if !ok {
			return false
		}
		v, ok := f.Info().Uses[sel.Sel].(*types.Var)
		return ok && v.IsField() && v.Name() == field && v.Pkg() != nil && v.Pkg().Path() == pkgRoot && fieldBelongsTo(v, "LogEntry")
	}
	for _, st := range all {
		f := st.f
		c.touch(f)
		kind, toks := sqlInfo(st.q)
		inst := fmt.Sprintf("%s: %s", f.Name, strings.Join(strings.Fields(st.q), " "))
		args := sqlBoundArgs(st.s.Call)
		switch kind {
		case "INSERT":
			_, cols, nph, ok := insertColumns(toks)
			if !ok || nph != len(cols) || len(args) != len(cols) {
				c.Bad(inst, st.s.Pos(), fmt.Sprintf("column/placeholder/argument counts differ: %d/%d/%d", len(cols), nph, len(args)))
				continue
			}
			bad := ""
			for i, col := range cols {
				switch col {
				case "KEY":
					if !isHashOf(f, args[i], true) {
						bad = "key is not bound to the full computeCacheHash value"
					}
				case "TIMESTAMP":
					if !isEntryField(f, args[i], "Timestamp") {
						bad = "timestamp column is bound to " + exprString(args[i])
					}
				case "LEAF_INDEX":
					if !isEntryField(f, args[i], "LeafIndex") {
						bad = "leaf_index column is bound to " + exprString(args[i])
					}
				default:
					bad = "unknown column " + col
				}
			}
			// the hash and the fields come from the same entry
			if bad == "" {
				var roots []types.Object
				for i := range cols {
					e := args[i]
					if sl, ok := ast.Unparen(e).(*ast.SliceExpr); ok {
						if call, ok := f.IsCallResult(sl.X, -1, Callee{pkgCtlog, "", "computeCacheHash"}, Callee{pkgRecomp, "", "computeCacheHash"}); ok && len(call.Args) == 3 {
							roots = append(roots, rootObj(f.Info(), call.Args[0]), rootObj(f.Info(), call.Args[1]), rootObj(f.Info(), call.Args[2]))
						}
					} else {
						roots = append(roots, rootObj(f.Info(), e))
					}
				}
				for _, r := range roots {
					if r == nil || r != roots[0] {
						bad = "key, timestamp and index are not taken from one entry"
					}
				}
			}
			if bad != "" {
				c.Bad(inst, st.s.Pos(), bad)
			} else {
				c.add(Result{Instance: inst, Verdict: Discharged, Evals: len(cols), Sites: []string{st.s.Pos()}, Detail: "columns " + strings.ToLower(strings.Join(cols, ",")) + " bound to hash, Timestamp, LeafIndex of one entry"})
			}
		case "SELECT":
			cols, table, where := selectColumns(toks)
			if len(where) != 3 || where[0] != "KEY" || where[1] != "=" || where[2] != "?" || len(args) != 1 {
				c.Bad(inst, st.s.Pos(), "lookup is not `WHERE key = ?` with one bound value")
				continue
			}
			legacy := table == "CACHE"
			okKey := isHashOf(f, args[0], !legacy)
			if legacy {
				if sl, ok := ast.Unparen(args[0]).(*ast.SliceExpr); !ok || sl.Low != nil || sl.High == nil {
					okKey = false
				} else if v, ok := constInt(f.Info(), sl.High); !ok || v != 16 {
					okKey = false
				}
			}
			if !okKey {
				c.Bad(inst, st.s.Pos(), "the lookup key is not the computeCacheHash value expected by table "+strings.ToLower(table))
				continue
			}
			// result function: asLogEntry(idx <- leaf_index, timestamp <- timestamp)
			lit, ok := ast.Unparen(st.s.Call.Args[2]).(*ast.FuncLit)
			if !ok {
				c.Unk(inst, "result function is not a literal")
				continue
			}
			lf := c.P.FuncOfLit(lit)
			calls := lf.Calls(Callee{pkgCtlog, "PendingLogEntry", "asLogEntry"})
			if len(calls) != 1 {
				c.Bad(inst, st.s.Pos(), "the row is not turned into an entry with asLogEntry")
				continue
			}
			colOf := func(e ast.Expr) string {
				ce, ok := ast.Unparen(e).(*ast.CallExpr)
				if !ok || !matchCallee(f.Info(), ce, Callee{pkgSqlite, "Stmt", "GetInt64"}) || len(ce.Args) != 1 {
					return ""
				}
				s, _ := constString(f.Info(), ce.Args[0])
				return strings.ToUpper(s)
			}
			ci, ct := colOf(argByName(f.Info(), calls[0].Call, "idx")), colOf(argByName(f.Info(), calls[0].Call, "timestamp"))
			if ci != "LEAF_INDEX" || ct != "TIMESTAMP" || !hasToken(cols, "LEAF_INDEX") || !hasToken(cols, "TIMESTAMP") {
				c.Bad(inst, calls[0].Pos(), fmt.Sprintf("row columns are mapped wrongly: idx <- %q, timestamp <- %q (selected: %v)", strings.ToLower(ci), strings.ToLower(ct), cols))
				continue
			}
			// entry is built from the queried leaf
			sel, _ := ast.Unparen(calls[0].Call.Fun).(*ast.SelectorExpr)
			if sel == nil || objOf(f.Info(), sel.X) != f.Top().paramObj("leaf") {
				c.Bad(inst, calls[0].Pos(), "the cached coordinates are attached to an entry other than the queried leaf")
				continue
			}
			c.add(Result{Instance: inst, Verdict: Discharged, Evals: 3, Sites: []string{st.s.Pos()}, Detail: "key bound to the hash; idx <- leaf_index, timestamp <- timestamp"})
		case "CREATE":
			if hasToken(toks, "KEY") && hasToken(toks, "TIMESTAMP") && hasToken(toks, "LEAF_INDEX") {
				c.OK(inst, "table declares the columns key, timestamp, leaf_index used by the statements", []string{st.s.Pos()})
			} else {
				c.Bad(inst, st.s.Pos(), "the cache table does not declare the columns key, timestamp, leaf_index")
			}
		default:
			c.Unk(inst, "unrecognised cache statement kind "+kind)
		}
	}
	if len(all) == 0 {
		c.Unk("cache statements", "no SQL statement on the cache tables found")
	}
}

func c07f(c *Ctx) { c07fFor(c, "") }

// c07fFor checks determinism of digitallySign as used by caller (all callers
// when caller is empty): the random source given to ecdsa Sign is nil, either
// literally or because it is a parameter that this caller binds to nil.
func c07fFor(c *Ctx, caller string) {
	f := c.Fn("ctlog.digitallySign")
	if f == nil {
		return
	}
	info := f.Info()
	signs := f.Calls(Callee{"crypto/ecdsa", "PrivateKey", "Sign"})
	if len(signs) != 1 {
		c.Unk(f.Name, fmt.Sprintf("expected one ecdsa Sign call, found %d", len(signs)))
		return
	}
	s := signs[0]
	if !isNilIdent(info, s.Call.Args[0]) {
		// a parameter: every relevant call site must bind it to nil
		po := objOf(info, s.Call.Args[0])
		okAll, n := po != nil && isParamOrRecv(f, po), 0
		where := s.Pos()
		if okAll {
			for _, g := range c.P.Funcs("") {
				if g.Body == nil || (caller != "" && g.Top().Name != caller) {
					continue
				}
				for _, cs := range g.Calls(Callee{pkgCtlog, "", "digitallySign"}) {
					n++
					if a := argForParam(f, cs.Call, po); a == nil || !isNilIdent(g.Info(), a) {
						okAll = false
						where = cs.Pos()
					}
				}
			}
		}
		if !okAll || n == 0 {
			c.Bad(f.Name, where, "the ECDSA signature is requested with a random source, so equal inputs no longer give equal signature bytes")
			return
		}
	}
	// digest = sha256.Sum256(msg)[:]
	okDigest := false
	if sl, ok := ast.Unparen(s.Call.Args[1]).(*ast.SliceExpr); ok {
		if call, ok := f.IsCallResult(sl.X, -1, Callee{"crypto/sha256", "", "Sum256"}); ok && len(call.Args) == 1 && f.IsParam(call.Args[0], "msg") {
			okDigest = true
		}
	}
	if !okDigest {
		c.Bad(f.Name, s.Pos(), "the signed digest is not SHA-256 of the message parameter")
		return
	}
	// key is the parameter
	if sel, ok := ast.Unparen(s.Call.Fun).(*ast.SelectorExpr); !ok || !f.IsParam(sel.X, "k") {
		c.Bad(f.Name, s.Pos(), "the signature is not made with the key parameter")
		return
	}
	c.add(Result{Instance: f.Name, Verdict: Discharged, Sites: []string{s.Pos()}, Evals: 3, Detail: "k.Sign(nil, sha256(msg), SHA256)",
		Witnesses: []Witness{f.Wit(s.Call.Args[0], "rand.Reader", "randomise")}})
}

func c07g(c *Ctx) {
	f := c.Fn("recompute-cache.main")
	if f == nil {
		return
	}
	info := f.Info()
	g := f.Graph()
	// the INSERT
	var ins []Site
	sites, qs := sqlCalls(f)
	for i := range sites {
		if k, _ := sqlInfo(qs[i]); k == "INSERT" {
			ins = append(ins, sites[i])
		}
	}
	if len(ins) != 1 {
		c.Unk(f.Name, fmt.Sprintf("expected one INSERT, found %d", len(ins)))
		return
	}
	// enclosing range over client.Entries(ctx, checkpoint.Tree, 0)
	var rs *ast.RangeStmt
	ast.Inspect(f.Body, func(n ast.Node) bool {
		r, ok := n.(*ast.RangeStmt)
		if ok && r.Body.Pos() <= ins[0].Call.Pos() && ins[0].Call.End() <= r.Body.End() {
			rs = r
		}
		return true
	})
	if rs == nil {
		c.Bad(f.Name+" source", ins[0].Pos(), "the INSERT is not inside an iteration over log entries")
		return
	}
	call, ok := ast.Unparen(rs.X).(*ast.CallExpr)
	if !ok || !matchCallee(info, call, Callee{pkgRoot, "Client", "Entries"}, Callee{pkgRoot, "Client", "AllEntries"}) {
		c.Bad(f.Name+" source", f.Pos(rs), "entries are not obtained from the authenticating sunlight.Client")
		return
	}
	tree := argByName(info, call, "tree")
	start := argByName(info, call, "start")
	root, path, okp := fieldPath(info, tree)
	okTree := false
	if okp && len(path) == 1 && path[0] == "Tree" && root != nil {
		for _, d := range f.Defs(root) {
			if d.Kind == DefAssign && d.Idx == 0 {
				if cc, ok := ast.Unparen(d.Rhs).(*ast.CallExpr); ok && matchCallee(info, cc, Callee{pkgRoot, "Client", "Checkpoint"}) {
					okTree = true
				}
			}
		}
	}
	if v, ok := constInt(info, start); !ok || v != 0 {
		okTree = false
	}
	if !okTree {
		c.Bad(f.Name+" source", f.Pos(call), "the iteration is not over the tree of the checkpoint verified by Client.Checkpoint, from index 0")
		return
	}
	c.OK(f.Name+" source", "range client.Entries(ctx, checkpoint.Tree, 0) with checkpoint from Client.Checkpoint", []string{f.Pos(call)})
	iObj, seObj := objOf(info, rs.Key), objOf(info, rs.Value)
	isIdx := func(e ast.Expr) bool { return objOf(info, e) == iObj }
	isLI := func(e ast.Expr) bool {
		r, p, ok := fieldPath(info, e)
		return ok && r == seObj && len(p) == 1 && p[0] == "LeafIndex"
	}
	safe := g.EdgesImplying(func(a Atom) bool {
		rel, ok := cmpRel(a, isLI, isIdx)
		return ok && rel == relEQ
	})
	if len(safe) == 0 {
		c.Bad(f.Name+" index guard", ins[0].Pos(), "entries are inserted without checking that their leaf index equals their position")
		return
	}
	if pt, _ := g.ReachableFromEntry(Cut{Edges: safe}, atSite(ins[0])); pt != nil {
		c.Bad(f.Name+" index guard", ins[0].Pos(), "the INSERT is reachable when the entry's leaf index differs from its position")
		return
	}
	// values come from se
	args := sqlBoundArgs(ins[0].Call)
	for _, a := range args {
		r := rootObj(info, f.ResolveDeep(a).E)
		if sl, ok := ast.Unparen(a).(*ast.SliceExpr); ok {
			if cc, ok := f.IsCallResult(sl.X, -1, Callee{pkgRecomp, "", "computeCacheHash"}); ok && cacheHashArgsOf(f, cc, seObj) {
				continue
			}
			c.Bad(f.Name+" values", ins[0].Pos(), "the key is not computed from the iterated entry")
			return
		}
		if r != seObj {
			c.Bad(f.Name+" values", ins[0].Pos(), "an inserted value does not come from the iterated entry: "+exprString(a))
			return
		}
	}
	c.add(Result{Instance: f.Name + " index guard", Verdict: Discharged, Sites: []string{ins[0].Pos()}, Evals: 2, Detail: "INSERT only when se.LeafIndex == i; values from se", Witnesses: f.WitEdges(safe)})
}

// hashFinal names the hash applied to the builder's bytes in the return
// statement of a cache-key function (e.g. "crypto/sha256.Sum256").
func hashFinal(f *Func) string {
	out := ""
	for _, r := range f.Returns() {
		ast.Inspect(r.X, func(n ast.Node) bool {
			if call, ok := n.(*ast.CallExpr); ok {
				if fn, ok := calleeObj(f.Info(), call).(*types.Func); ok && fn.Pkg() != nil && strings.HasPrefix(fn.Pkg().Path(), "crypto/") {
					out = fn.Pkg().Path() + "." + fn.Name()
				}
			}
			return true
		})
	}
	return out
}
