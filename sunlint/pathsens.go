package main

// Path-sensitive reachability: while a path is explored, the values of a few
// local variables are tracked in a small constant domain (an error variable is
// nil / non-nil / unknown, a bool variable true / false / unknown), conditions
// that test them are evaluated, and edges whose condition is decided the other
// way are not followed. This is abstract interpretation over a finite domain on
// the go/cfg graph; it only ever removes infeasible paths.
//
// Tracked: local variables of type error or bool that are declared in the
// function itself, whose address is never taken and which no nested function
// literal mentions (so every write is a node of this graph).

import (
	"fmt"
	"go/ast"
	"go/token"
	"go/types"
	"sort"
	"strings"
)

type penv map[types.Object]Tri // definite entries only

func (e penv) key() string {
	if len(e) == 0 {
		return ""
	}
	ks := make([]string, 0, len(e))
	for o, v := range e {
		ks = append(ks, fmt.Sprintf("%d=%d", o.Pos(), v))
	}
	sort.Strings(ks)
	return strings.Join(ks, ",")
}

func (e penv) with(o types.Object, v Tri) penv {
	if cur, ok := e[o]; (ok && cur == v) || (!ok && v == Unknown) {
		return e
	}
	n := make(penv, len(e)+1)
	for k, x := range e {
		n[k] = x
	}
	if v == Unknown {
		delete(n, o)
	} else {
		n[o] = v
	}
	return n
}

// tracked computes (once) the variables whose value the path search follows.
func (g *Graph) tracked() map[types.Object]bool {
	if g.trackedVars != nil {
		return g.trackedVars
	}
	f := g.F
	info := f.Info()
	out := map[types.Object]bool{}
	g.trackedVars = out
	if f.Body == nil {
		return out
	}
	cand := map[types.Object]bool{}
	consider := func(e ast.Expr) {
		o := objOf(info, e)
		v, ok := o.(*types.Var)
		if !ok || !isLocal(o) || v.IsField() {
			return
		}
		if !isErrorType(v.Type()) && !isBoolType(v.Type()) {
			return
		}
		if o.Pos() < f.Body.Pos() || o.Pos() > f.Body.End() {
			return // parameter, result or captured variable
		}
		cand[o] = true
	}
	inspectNoLit(f.Body, func(n ast.Node) bool {
		switch s := n.(type) {
		case *ast.AssignStmt:
			for _, l := range s.Lhs {
				consider(l)
			}
		case *ast.ValueSpec:
			for _, nm := range s.Names {
				consider(nm)
			}
		}
		return true
	})
	if len(cand) == 0 {
		return out
	}
	// exclusions: address taken, or mentioned by a nested literal
	bad := map[types.Object]bool{}
	ast.Inspect(f.Body, func(n ast.Node) bool {
		switch x := n.(type) {
		case *ast.UnaryExpr:
			if x.Op == token.AND {
				if o := objOf(info, x.X); o != nil {
					bad[o] = true
				}
			}
		case *ast.FuncLit:
			ast.Inspect(x.Body, func(m ast.Node) bool {
				if id, ok := m.(*ast.Ident); ok {
					if o := info.Uses[id]; o != nil && cand[o] {
						bad[o] = true
					}
				}
				return true
			})
			return false
		}
		return true
	})
	for o := range cand {
		if !bad[o] {
			out[o] = true
		}
	}
	return out
}

// valueOf abstracts an expression assigned to a tracked variable.
func (g *Graph) valueOf(e ast.Expr, env penv) Tri {
	f := g.F
	info := f.Info()
	e = ast.Unparen(e)
	if isNilIdent(info, e) {
		return False
	}
	if b, ok := constBool(info, e); ok {
		if b {
			return True
		}
		return False
	}
	if u, ok := e.(*ast.UnaryExpr); ok && u.Op == token.NOT {
		return g.valueOf(u.X, env).Not()
	}
	if o := objOf(info, e); o != nil && g.tracked()[o] {
		return env[o]
	}
	if tv, ok := info.Types[e]; ok && isErrorType(tv.Type) {
		if id, isId := e.(*ast.Ident); isId {
			if o := info.Uses[id]; o != nil && isLocal(o) {
				return Unknown
			}
		}
		if !f.mayBeNilError(e) {
			return True
		}
	}
	return Unknown
}

// isFreshErr: e is a direct call of an error constructor.
func (g *Graph) isFreshErr(e ast.Expr) bool {
	call, ok := ast.Unparen(e).(*ast.CallExpr)
	if !ok {
		return false
	}
	fn, ok := calleeObj(g.F.Info(), call).(*types.Func)
	if !ok {
		return false
	}
	if fn.Name() == "fmtErrorf" {
		return true
	}
	return fn.Pkg() != nil && (fn.Pkg().Path()+"."+fn.Name() == "fmt.Errorf" || fn.Pkg().Path()+"."+fn.Name() == "errors.New")
}

// rootPkgVar: e names a package-level variable (x or pkg.x).
func rootPkgVar(info *types.Info, e ast.Expr) (*types.Var, bool) {
	switch x := ast.Unparen(e).(type) {
	case *ast.Ident:
		if o, ok := info.Uses[x].(*types.Var); ok && !isLocal(o) && !o.IsField() {
			return o, true
		}
	case *ast.SelectorExpr:
		if o, ok := info.Uses[x.Sel].(*types.Var); ok && !isLocal(o) && !o.IsField() {
			return o, true
		}
	}
	return nil, false
}

// step applies the effect of CFG node n to env.
func (g *Graph) step(env penv, n ast.Node) penv {
	tr := g.tracked()
	if len(tr) == 0 {
		return env
	}
	info := g.F.Info()
	switch s := n.(type) {
	case *ast.AssignStmt:
		if (s.Tok == token.ASSIGN || s.Tok == token.DEFINE) && len(s.Lhs) == len(s.Rhs) {
			vals := make([]Tri, len(s.Rhs))
			for i, r := range s.Rhs {
				vals[i] = g.valueOf(r, env)
				if vals[i] == True && g.isFreshErr(r) {
					vals[i] = Fresh
				}
			}
			for i, l := range s.Lhs {
				if o := objOf(info, l); o != nil && tr[o] {
					env = env.with(o, vals[i])
				}
			}
			return env
		}
		for _, l := range s.Lhs {
			if o := objOf(info, l); o != nil && tr[o] {
				env = env.with(o, Unknown)
			}
		}
	case *ast.DeclStmt:
		if gd, ok := s.Decl.(*ast.GenDecl); ok {
			for _, sp := range gd.Specs {
				if vs, ok := sp.(*ast.ValueSpec); ok {
					env = g.step(env, vs)
				}
			}
		}
	case *ast.ValueSpec:
		for i, nm := range s.Names {
			o := info.Defs[nm]
			if o == nil || !tr[o] {
				continue
			}
			switch {
			case len(s.Values) == 0:
				env = env.with(o, False) // zero value: nil / false
			case len(s.Values) == len(s.Names):
				env = env.with(o, g.valueOf(s.Values[i], env))
			default:
				env = env.with(o, Unknown)
			}
		}
	default:
		// any other node that assigns (range clauses, inc/dec): forget
		for o := range tr {
			if _, known := env[o]; known && assignsTo(info, n, o) {
				env = env.with(o, Unknown)
			}
		}
	}
	return env
}

// atomValue evaluates one atomic condition under env (Unknown if not decided).
func (g *Graph) atomValue(e ast.Expr, env penv) Tri {
	if len(env) == 0 {
		return Unknown
	}
	f := g.F
	info := f.Info()
	tr := g.tracked()
	isTracked := func(x ast.Expr) bool { o := objOf(info, x); return o != nil && tr[o] }
	e = ast.Unparen(e)
	if o := objOf(info, e); o != nil && tr[o] {
		return env[o]
	}
	if eq, ok := isNilCmp(info, e, isTracked); ok {
		be := e.(*ast.BinaryExpr)
		x := be.X
		if !isTracked(x) {
			x = be.Y
		}
		v := env[objOf(info, x)] // True = non-nil
		if v == Unknown {
			return Unknown
		}
		if v == Fresh {
			v = True
		}
		if eq {
			return v.Not()
		}
		return v
	}
	// a nil error is not equal to a non-nil sentinel, is not errors.Is / errors.As anything
	if be, ok := e.(*ast.BinaryExpr); ok && (be.Op == token.EQL || be.Op == token.NEQ) {
		x, y := be.X, be.Y
		if !isTracked(x) {
			x, y = y, x
		}
		if isTracked(x) && env[objOf(info, x)] == False {
			if tv, has := info.Types[y]; has && isErrorType(tv.Type) && !f.mayBeNilError(y) {
				if be.Op == token.EQL {
					return False
				}
				return True
			}
		}
		// an error value built a moment ago is not identical to a package-level sentinel
		if isTracked(x) && env[objOf(info, x)] == Fresh {
			if o, isVar := rootPkgVar(info, y); isVar && isErrorType(o.Type()) {
				if be.Op == token.EQL {
					return False
				}
				return True
			}
		}
	}
	if call, ok := e.(*ast.CallExpr); ok && len(call.Args) == 2 && matchCallee(info, call, Callee{"errors", "", "Is"}, Callee{"errors", "", "As"}) {
		if isTracked(call.Args[0]) && env[objOf(info, call.Args[0])] == False {
			if matchCallee(info, call, Callee{"errors", "", "As"}) || !f.mayBeNilError(call.Args[1]) {
				return False
			}
		}
	}
	return Unknown
}

// refine adds what taking edge (b, k) says about tracked variables.
func (g *Graph) refine(env penv, e Edge) penv {
	tr := g.tracked()
	if len(tr) == 0 {
		return env
	}
	info := g.F.Info()
	isTracked := func(x ast.Expr) bool { o := objOf(info, x); return o != nil && tr[o] }
	for _, a := range EdgeFacts(e) {
		x := ast.Unparen(a.E)
		if o := objOf(info, x); o != nil && tr[o] && isBoolType(o.Type()) {
			if a.Val {
				env = env.with(o, True)
			} else {
				env = env.with(o, False)
			}
			continue
		}
		if eq, ok := isNilCmp(info, x, isTracked); ok {
			be := x.(*ast.BinaryExpr)
			v := be.X
			if !isTracked(v) {
				v = be.Y
			}
			if eq != a.Val {
				if env[objOf(info, v)] != Fresh {
					env = env.with(objOf(info, v), True)
				}
			} else {
				env = env.with(objOf(info, v), False)
			}
			continue
		}
		// err == Sentinel (true) / errors.Is(err, X) (true): err is non-nil
		if be, ok := x.(*ast.BinaryExpr); ok && be.Op == token.EQL && a.Val {
			v, y := be.X, be.Y
			if !isTracked(v) {
				v, y = y, v
			}
			if isTracked(v) && isErrorType(objOf(info, v).Type()) && !g.F.mayBeNilError(y) && env[objOf(info, v)] != Fresh {
				env = env.with(objOf(info, v), True)
			}
		}
		if call, ok := x.(*ast.CallExpr); ok && a.Val && len(call.Args) == 2 && matchCallee(info, call, Callee{"errors", "", "Is"}, Callee{"errors", "", "As"}) {
			if isTracked(call.Args[0]) && env[objOf(info, call.Args[0])] != Fresh {
				env = env.with(objOf(info, call.Args[0]), True)
			}
		}
	}
	return env
}

// feasible reports whether edge k of block b can be taken under env.
func (g *Graph) feasible(b Edge, env penv) bool {
	if len(env) == 0 {
		return true
	}
	c := Cond(b.From)
	if c == nil {
		return true
	}
	switch evalCond(c, func(e ast.Expr) Tri { return g.atomValue(e, env) }) {
	case True:
		return b.Idx == 0
	case False:
		return b.Idx == 1
	}
	return true
}
